package adapt

import (
	"context"
	"errors"
	"github.com/aws/smithy-go"
	"sync/atomic"
	"time"

	"github.com/aws/aws-sdk-go-v2/aws"
	v2ddb "github.com/aws/aws-sdk-go-v2/service/dynamodb"
	v2types "github.com/aws/aws-sdk-go-v2/service/dynamodb/types"
	v2client "github.com/truora/minidyn/aws-v2/client"

	"verifharness/val"
)

// V2 drives the SDK v2 fake client.
type V2 struct{ C *v2client.Client }

// CancellingContexts makes every SDK v2 call of this process use a cancellable / deadline context (C11).
var CancellingContexts atomic.Bool
var ctxSeq atomic.Int64

// NewV2 returns a fresh SDK v2 client.
func NewV2() *V2 { return &V2{C: v2client.NewClient()} }

func (c *V2) Name() string     { return "v2" }
func (c *V2) Raw() interface{} { return c.C }

func v2KeySchema(hash, rng string) []v2types.KeySchemaElement {
	ks := []v2types.KeySchemaElement{{AttributeName: aws.String(hash), KeyType: v2types.KeyTypeHash}}
	if rng != "" {
		ks = append(ks, v2types.KeySchemaElement{AttributeName: aws.String(rng), KeyType: v2types.KeyTypeRange})
	}
	return ks
}

func v2Names(m map[string]string) map[string]string {
	if m == nil {
		return nil
	}
	out := map[string]string{}
	for k, v := range m {
		if v == NilName {
			v = ""
		}
		out[k] = v
	}
	return out
}

func v2Throughput() *v2types.ProvisionedThroughput {
	return &v2types.ProvisionedThroughput{ReadCapacityUnits: aws.Int64(5), WriteCapacityUnits: aws.Int64(5)}
}

// V2CreateInput builds the SDK v2 CreateTableInput of a table specification.
func V2CreateInput(spec *TableSpec) *v2ddb.CreateTableInput { return v2CreateInput(spec) }

func v2CreateInput(spec *TableSpec) *v2ddb.CreateTableInput {
	in := &v2ddb.CreateTableInput{TableName: aws.String(spec.Name), KeySchema: v2KeySchema(spec.Hash, spec.Range)}
	if spec.RawKeySchema != nil {
		in.KeySchema = nil
		for _, el := range spec.RawKeySchema {
			in.KeySchema = append(in.KeySchema, v2types.KeySchemaElement{AttributeName: aws.String(el[0]), KeyType: v2types.KeyType(el[1])})
		}
	}
	ad := specAttrDefs(spec)
	for _, n := range ad.order {
		in.AttributeDefinitions = append(in.AttributeDefinitions, v2types.AttributeDefinition{AttributeName: aws.String(n), AttributeType: v2types.ScalarAttributeType(ad.typ[n])})
	}
	if spec.Billing != "" {
		in.BillingMode = v2types.BillingMode(spec.Billing)
	}
	if spec.Throughput {
		in.ProvisionedThroughput = v2Throughput()
	}
	for _, ix := range spec.Indexes {
		if ix.Local {
			in.LocalSecondaryIndexes = append(in.LocalSecondaryIndexes, v2types.LocalSecondaryIndex{
				IndexName: strp(ix.Name), KeySchema: v2KeySchema(ix.Hash, ix.Range),
				Projection: v2Projection(ix),
			})
			continue
		}
		g := v2types.GlobalSecondaryIndex{
			IndexName: strp(ix.Name), KeySchema: v2KeySchema(ix.Hash, ix.Range),
			Projection: v2Projection(ix),
		}
		if spec.Throughput {
			g.ProvisionedThroughput = v2Throughput()
		}
		in.GlobalSecondaryIndexes = append(in.GlobalSecondaryIndexes, g)
	}
	return in
}

func v2Projection(ix IndexSpec) *v2types.Projection {
	return &v2types.Projection{ProjectionType: v2types.ProjectionType(ix.ProjType()), NonKeyAttributes: append([]string(nil), ix.NonKey...)}
}

func v2ProjDesc(id *IndexDesc, p *v2types.Projection) {
	if p == nil {
		return
	}
	id.Proj = string(p.ProjectionType)
	id.NonKey = append(id.NonKey, p.NonKeyAttributes...)
}

func v2Desc(d *v2types.TableDescription) *Desc {
	if d == nil {
		return nil
	}
	out := &Desc{Name: aws.ToString(d.TableName), Count: aws.ToInt64(d.ItemCount)}
	for _, k := range d.KeySchema {
		if k.KeyType == v2types.KeyTypeHash {
			out.Hash = aws.ToString(k.AttributeName)
		} else {
			out.Range = aws.ToString(k.AttributeName)
		}
	}
	for _, g := range d.GlobalSecondaryIndexes {
		id := IndexDesc{Name: aws.ToString(g.IndexName), Count: aws.ToInt64(g.ItemCount), HasCnt: g.ItemCount != nil}
		v2ProjDesc(&id, g.Projection)
		for _, k := range g.KeySchema {
			if k.KeyType == v2types.KeyTypeHash {
				id.Hash = aws.ToString(k.AttributeName)
			} else {
				id.Range = aws.ToString(k.AttributeName)
			}
		}
		out.Indexes = append(out.Indexes, id)
	}
	for _, g := range d.LocalSecondaryIndexes {
		id := IndexDesc{Name: aws.ToString(g.IndexName), Local: true, Count: aws.ToInt64(g.ItemCount), HasCnt: g.ItemCount != nil}
		v2ProjDesc(&id, g.Projection)
		for _, k := range g.KeySchema {
			if k.KeyType == v2types.KeyTypeHash {
				id.Hash = aws.ToString(k.AttributeName)
			} else {
				id.Range = aws.ToString(k.AttributeName)
			}
		}
		out.Indexes = append(out.Indexes, id)
	}
	SortIndexDescs(out.Indexes)
	return out
}

func v2Items(in []map[string]v2types.AttributeValue) []val.Item {
	out := make([]val.Item, 0, len(in))
	for _, m := range in {
		out = append(out, ItemFromV2(m))
	}
	return out
}

// Do executes one abstract operation under recover().
func (c *V2) Do(op Op) (out Outcome) {
	defer func() {
		if r := recover(); r != nil {
			cls, msg := ClassifyPanic(r)
			out = Outcome{Class: cls, Msg: msg, Site: PanicSite()}
		}
	}()
	ctx := context.Background()
	if CancellingContexts.Load() {
		// a live, cancellable context that is cancelled while the call is (probably) still queued or running, and a
		// deadline context that never fires: the library ignores contexts, so nothing may change - but IF a call
		// reports cancellation it must not take effect afterwards (the conservation monitors count outcomes)
		switch ctxSeq.Add(1) % 3 {
		case 0:
			c2, cancel := context.WithCancel(ctx)
			go func() {
				time.Sleep(time.Duration(ctxSeq.Load()%7) * 5 * time.Microsecond)
				cancel()
			}()
			ctx = c2
		case 1:
			c2, cancel := context.WithTimeout(ctx, time.Hour)
			defer cancel()
			ctx = c2
		}
	}
	if op.DoneCtx != "" {
		c2, cancel := DoneContext(op.DoneCtx)
		defer cancel()
		ctx = c2
	}
	fin := func(err error) Outcome {
		cls, msg := ClassifyErr(err)
		o := Outcome{Class: cls, Msg: msg}
		switch cls {
		case ClsValidation, ClsCondFailed, ClsNotFound, ClsInUse, ClsInternal:
			var api smithy.APIError
			o.ErrNotAPI = !errors.As(err, &api)
		}
		var ccf *v2types.ConditionalCheckFailedException
		if errors.As(err, &ccf) && ccf.Item != nil {
			o.HasCCF = len(ccf.Item) > 0
			o.CCFItem = NormalizeEmpty(ItemFromV2(ccf.Item))
		}
		return o
	}
	switch op.Kind {
	case OpPut:
		in := &v2ddb.PutItemInput{TableName: aws.String(op.Table), Item: ItemToV2(op.Item), ConditionExpression: condExpr(op),
			ExpressionAttributeNames: v2Names(op.Names), ExpressionAttributeValues: ItemToV2(op.Values)}
		in.ReturnConsumedCapacity = v2types.ReturnConsumedCapacity(op.RetCap)
		if op.RetCCF {
			in.ReturnValuesOnConditionCheckFailure = v2types.ReturnValuesOnConditionCheckFailureAllOld
		}
		for a, v := range op.Expected {
			if in.Expected == nil {
				in.Expected = map[string]v2types.ExpectedAttributeValue{}
			}
			in.Expected[a] = v2types.ExpectedAttributeValue{Value: ItemToV2(val.Item{"x": v})["x"]}
		}
		if op.RetVal != "" {
			in.ReturnValues = v2types.ReturnValue(op.RetVal)
		}
		_, err := c.C.PutItem(ctx, in)
		return fin(err)
	case OpGet:
		in := &v2ddb.GetItemInput{TableName: aws.String(op.Table), Key: ItemToV2(op.Key), ProjectionExpression: strpSet(op.Proj, op.ProjSet), ExpressionAttributeNames: v2Names(op.Names)}
		in.ReturnConsumedCapacity = v2types.ReturnConsumedCapacity(op.RetCap)
		in.AttributesToGet = op.AttrsToGet
		if op.Consistent {
			in.ConsistentRead = aws.Bool(true)
		} else if op.ConsistentFalse {
			in.ConsistentRead = aws.Bool(false)
		}
		res, err := c.C.GetItem(ctx, in)
		o := fin(err)
		if err == nil {
			if res == nil {
				o.RespNil = true
			} else {
				o.Item = NormalizeEmpty(ItemFromV2(res.Item))
			}
		}
		return o
	case OpUpdate:
		in := &v2ddb.UpdateItemInput{TableName: aws.String(op.Table), Key: ItemToV2(op.Key), UpdateExpression: updExpr(op),
			ConditionExpression: condExpr(op), ExpressionAttributeNames: v2Names(op.Names), ExpressionAttributeValues: ItemToV2(op.Values)}
		for a, u := range op.AttrUpd {
			if in.AttributeUpdates == nil {
				in.AttributeUpdates = map[string]v2types.AttributeValueUpdate{}
			}
			au := v2types.AttributeValueUpdate{Action: v2types.AttributeAction(u.Action)}
			if u.Value != nil {
				au.Value = ToV2(*u.Value)
			}
			in.AttributeUpdates[a] = au
		}
		in.ReturnConsumedCapacity = v2types.ReturnConsumedCapacity(op.RetCap)
		if op.RetCCF {
			in.ReturnValuesOnConditionCheckFailure = v2types.ReturnValuesOnConditionCheckFailureAllOld
		}
		for a, v := range op.Expected {
			if in.Expected == nil {
				in.Expected = map[string]v2types.ExpectedAttributeValue{}
			}
			in.Expected[a] = v2types.ExpectedAttributeValue{Value: ItemToV2(val.Item{"x": v})["x"]}
		}
		res, err := c.C.UpdateItem(ctx, in)
		o := fin(err)
		if err == nil {
			if res == nil {
				o.RespNil = true
			} else {
				o.Item = NormalizeEmpty(ItemFromV2(res.Attributes))
			}
		}
		return o
	case OpDelete:
		in := &v2ddb.DeleteItemInput{TableName: aws.String(op.Table), Key: ItemToV2(op.Key), ConditionExpression: condExpr(op),
			ExpressionAttributeNames: v2Names(op.Names), ExpressionAttributeValues: ItemToV2(op.Values)}
		in.ReturnConsumedCapacity = v2types.ReturnConsumedCapacity(op.RetCap)
		if op.RetOld {
			in.ReturnValues = v2types.ReturnValueAllOld
		}
		if op.RetCCF {
			in.ReturnValuesOnConditionCheckFailure = v2types.ReturnValuesOnConditionCheckFailureAllOld
		}
		if op.RetVal != "" {
			in.ReturnValues = v2types.ReturnValue(op.RetVal)
		}
		for a, v := range op.Expected {
			if in.Expected == nil {
				in.Expected = map[string]v2types.ExpectedAttributeValue{}
			}
			in.Expected[a] = v2types.ExpectedAttributeValue{Value: ItemToV2(val.Item{"x": v})["x"]}
		}
		res, err := c.C.DeleteItem(ctx, in)
		o := fin(err)
		if err == nil {
			if res == nil {
				o.RespNil = true
			} else {
				o.Item = NormalizeEmpty(ItemFromV2(res.Attributes))
			}
		}
		return o
	case OpQuery:
		in := &v2ddb.QueryInput{TableName: aws.String(op.Table), FilterExpression: strpSet(op.Filter, op.FilterSet), ProjectionExpression: strpSet(op.Proj, op.ProjSet),
			ExpressionAttributeNames: v2Names(op.Names), ExpressionAttributeValues: ItemToV2(op.Values), IndexName: strp(op.Index),
			ExclusiveStartKey: ItemToV2(op.Start)}
		in.ReturnConsumedCapacity = v2types.ReturnConsumedCapacity(op.RetCap)
		if !op.NoKC {
			in.KeyConditionExpression = aws.String(op.KeyCnd)
		}
		in.AttributesToGet = op.AttrsToGet
		if op.Consistent {
			in.ConsistentRead = aws.Bool(true)
		} else if op.ConsistentFalse {
			in.ConsistentRead = aws.Bool(false)
		}
		in.Select = v2types.Select(op.Select)
		if op.Limit > 0 {
			in.Limit = aws.Int32(int32(op.Limit))
		}
		if op.Rev {
			in.ScanIndexForward = aws.Bool(false)
		}
		if op.Paginate {
			pg := v2ddb.NewQueryPaginator(c.C, in)
			o := Outcome{Class: ClsOK}
			for pg.HasMorePages() {
				if int(o.Count) >= op.MaxPages {
					o.Msg = "paginator still has pages after MaxPages"
					o.LastKeyEmpty = true
					return o
				}
				page, err := pg.NextPage(ctx)
				if err != nil {
					f := fin(err)
					f.Count, f.Items = o.Count, o.Items
					return f
				}
				o.Count++
				o.Items = append(o.Items, v2Items(page.Items)...)
				if op.FailAfterPage > 0 && int(o.Count) == op.FailAfterPage {
					v2client.EmulateFailure(c.C, v2client.FailureCondition(op.Fail))
				}
			}
			return o
		}
		res, err := c.C.Query(ctx, in)
		o := fin(err)
		if err == nil {
			if res == nil {
				o.RespNil = true
			} else {
				o.Items = v2Items(res.Items)
				o.Count = int64(res.Count)
				o.LastKey = NormalizeEmpty(ItemFromV2(res.LastEvaluatedKey))
				o.LastKeyEmpty = res.LastEvaluatedKey != nil && len(res.LastEvaluatedKey) == 0
			}
		}
		return o
	case OpScan:
		in := &v2ddb.ScanInput{TableName: aws.String(op.Table), FilterExpression: strpSet(op.Filter, op.FilterSet), ProjectionExpression: strpSet(op.Proj, op.ProjSet),
			ExpressionAttributeNames: v2Names(op.Names), ExpressionAttributeValues: ItemToV2(op.Values), IndexName: strp(op.Index),
			ExclusiveStartKey: ItemToV2(op.Start)}
		in.ReturnConsumedCapacity = v2types.ReturnConsumedCapacity(op.RetCap)
		in.AttributesToGet = op.AttrsToGet
		if op.Consistent {
			in.ConsistentRead = aws.Bool(true)
		} else if op.ConsistentFalse {
			in.ConsistentRead = aws.Bool(false)
		}
		in.Select = v2types.Select(op.Select)
		if op.Limit > 0 {
			in.Limit = aws.Int32(int32(op.Limit))
		}
		if op.TotalSegments > 0 {
			in.Segment, in.TotalSegments = aws.Int32(int32(op.Segment)), aws.Int32(int32(op.TotalSegments))
		}
		if op.Paginate {
			pg := v2ddb.NewScanPaginator(c.C, in)
			o := Outcome{Class: ClsOK}
			for pg.HasMorePages() {
				if int(o.Count) >= op.MaxPages {
					o.Msg = "paginator still has pages after MaxPages"
					o.LastKeyEmpty = true
					return o
				}
				page, err := pg.NextPage(ctx)
				if err != nil {
					f := fin(err)
					f.Count, f.Items = o.Count, o.Items
					return f
				}
				o.Count++
				o.Items = append(o.Items, v2Items(page.Items)...)
				if op.FailAfterPage > 0 && int(o.Count) == op.FailAfterPage {
					v2client.EmulateFailure(c.C, v2client.FailureCondition(op.Fail))
				}
			}
			return o
		}
		res, err := c.C.Scan(ctx, in)
		o := fin(err)
		if err == nil {
			if res == nil {
				o.RespNil = true
			} else {
				o.Items = v2Items(res.Items)
				o.Count = int64(res.Count)
				o.LastKey = NormalizeEmpty(ItemFromV2(res.LastEvaluatedKey))
				o.LastKeyEmpty = res.LastEvaluatedKey != nil && len(res.LastEvaluatedKey) == 0
			}
		}
		return o
	case OpBatchWrite:
		in := &v2ddb.BatchWriteItemInput{RequestItems: map[string][]v2types.WriteRequest{}}
		in.ReturnConsumedCapacity = v2types.ReturnConsumedCapacity(op.RetCap)
		for _, t := range op.EmptyTables {
			in.RequestItems[t] = []v2types.WriteRequest{}
		}
		for _, e := range op.Batch {
			wr := v2types.WriteRequest{}
			if e.Put != nil {
				wr.PutRequest = &v2types.PutRequest{Item: ItemToV2(e.Put)}
			}
			if e.Del != nil {
				wr.DeleteRequest = &v2types.DeleteRequest{Key: ItemToV2(e.Del)}
			}
			in.RequestItems[e.Table] = append(in.RequestItems[e.Table], wr)
		}
		res, err := c.C.BatchWriteItem(ctx, in)
		if op.ResendUnprocessed && err == nil && res != nil && len(res.UnprocessedItems) > 0 {
			v2client.EmulateFailure(c.C, v2client.FailureConditionNone)
			v2client.DeactiveForceFailure(c.C)
			res, err = c.C.BatchWriteItem(ctx, &v2ddb.BatchWriteItemInput{RequestItems: res.UnprocessedItems})
		}
		o := fin(err)
		if res != nil {
			for t, reqs := range res.UnprocessedItems {
				for _, r := range reqs {
					be := BatchEntry{Table: t}
					if r.PutRequest != nil {
						be.Put = ItemFromV2(r.PutRequest.Item)
					}
					if r.DeleteRequest != nil {
						be.Del = ItemFromV2(r.DeleteRequest.Key)
					}
					o.Unproc = append(o.Unproc, be)
				}
			}
		} else if err == nil {
			o.RespNil = true
		}
		return o
	case OpBatchGet:
		in := &v2ddb.BatchGetItemInput{RequestItems: map[string]v2types.KeysAndAttributes{}}
		in.ReturnConsumedCapacity = v2types.ReturnConsumedCapacity(op.RetCap)
		for _, e := range op.Gets {
			ka := in.RequestItems[e.Table]
			ka.Keys = append(ka.Keys, ItemToV2(e.Del))
			ka.AttributesToGet = op.AttrsToGet
			if op.Consistent {
				ka.ConsistentRead = aws.Bool(true)
			}
			ka.ProjectionExpression = strpSet(op.Proj, op.ProjSet)
			if op.Proj != "" {
				ka.ExpressionAttributeNames = v2Names(op.Names)
			}
			in.RequestItems[e.Table] = ka
		}
		res, err := c.C.BatchGetItem(ctx, in)
		o := fin(err)
		if err == nil {
			if res == nil {
				o.RespNil = true
				return o
			}
			o.Resp = map[string][]val.Item{}
			for t, items := range res.Responses {
				o.Resp[t] = v2Items(items)
			}
			o.UnprocK = map[string][]val.Item{}
			for t, ka := range res.UnprocessedKeys {
				o.UnprocK[t] = v2Items(ka.Keys)
			}
		}
		return o
	case OpTransact:
		tin := &v2ddb.TransactWriteItemsInput{ClientRequestToken: strp(op.Token)}
		if op.Table != "" {
			tin.TransactItems = []v2types.TransactWriteItem{{Put: &v2types.Put{TableName: aws.String(op.Table), Item: ItemToV2(op.Item)}}}
		}
		for _, a := range op.Acts {
			if a.Put != nil {
				tin.TransactItems = append(tin.TransactItems, v2types.TransactWriteItem{Put: &v2types.Put{TableName: aws.String(a.Table), Item: ItemToV2(a.Put), ConditionExpression: strp(a.Cond)}})
			} else {
				tin.TransactItems = append(tin.TransactItems, v2types.TransactWriteItem{Delete: &v2types.Delete{TableName: aws.String(a.Table), Key: ItemToV2(a.Del), ConditionExpression: strp(a.Cond)}})
			}
		}
		_, err := c.C.TransactWriteItems(ctx, tin)
		return fin(err)
	case OpCreateTable:
		res, err := c.C.CreateTable(ctx, v2CreateInput(op.Spec))
		o := fin(err)
		if err == nil && res != nil {
			o.Desc = v2Desc(res.TableDescription)
		}
		return o
	case OpDeleteTable:
		res, err := c.C.DeleteTable(ctx, &v2ddb.DeleteTableInput{TableName: aws.String(op.Table)})
		o := fin(err)
		if err == nil && res != nil {
			o.Desc = v2Desc(res.TableDescription)
		}
		return o
	case OpDescribe:
		res, err := c.C.DescribeTable(ctx, &v2ddb.DescribeTableInput{TableName: aws.String(op.Table)})
		o := fin(err)
		if err == nil {
			if res == nil {
				o.RespNil = true
			} else {
				o.Desc = v2Desc(res.Table)
			}
		}
		return o
	case OpUpdateTable:
		in := v2UpdateInput(op)
		res, err := c.C.UpdateTable(ctx, in)
		o := fin(err)
		if err == nil && res != nil {
			o.Desc = v2Desc(res.TableDescription)
		}
		return o
	case OpAddTable:
		return fin(v2client.AddTable(ctx, c.C, op.Spec.Name, op.Spec.Hash, op.Spec.Range))
	case OpAddIndex:
		return fin(v2client.AddIndex(ctx, c.C, op.Table, op.Ix.Name, op.Ix.Hash, op.Ix.Range))
	case OpClearTable:
		return fin(v2client.ClearTable(c.C, op.Table))
	case OpSetMetrics:
		m := map[string][]v2types.ItemCollectionMetrics{}
		if op.Table != "" {
			m[op.Table] = []v2types.ItemCollectionMetrics{{SizeEstimateRangeGB: []float64{0}}}
		}
		v2client.SetItemCollectionMetrics(c.C, m)
		return Outcome{Class: ClsOK}
	case OpEmulate:
		v2client.EmulateFailure(c.C, v2client.FailureCondition(op.Fail))
		return Outcome{Class: ClsOK}
	case OpForceOn:
		v2client.ActiveForceFailure(c.C)
		return Outcome{Class: ClsOK}
	case OpForceOff:
		v2client.DeactiveForceFailure(c.C)
		return Outcome{Class: ClsOK}
	}
	return Outcome{Class: "Other:unknown-op"}
}

// New returns a fresh client of the named adapter ("v1" or "v2").
func New(name string) Client {
	if name == "v1" {
		return NewV1()
	}
	return NewV2()
}

// Adapters lists both adapter names.
var Adapters = []string{"v1", "v2"}

// V2UpdateInput builds the UpdateTableInput of an OpUpdateTable.
func V2UpdateInput(op Op) *v2ddb.UpdateTableInput { return v2UpdateInput(op) }

func v2UpdateInput(op Op) *v2ddb.UpdateTableInput {
	in := &v2ddb.UpdateTableInput{TableName: aws.String(op.Table)}
	ad := &attrDefs{}
	for _, ch := range op.Chg {
		u := v2types.GlobalSecondaryIndexUpdate{}
		if ch.Create != nil {
			if !op.NoDefs {
				ad.add(ch.Create.Hash, ch.Create.HashT)
				ad.add(ch.Create.Range, ch.Create.RangeT)
			}
			u.Create = &v2types.CreateGlobalSecondaryIndexAction{IndexName: strp(ch.Create.Name),
				KeySchema:  v2KeySchema(ch.Create.Hash, ch.Create.Range),
				Projection: v2Projection(*ch.Create), ProvisionedThroughput: v2Throughput()}
			if op.NoThroughput {
				u.Create.ProvisionedThroughput = nil
			}
		}
		if ch.DeleteUnnamed {
			u.Delete = &v2types.DeleteGlobalSecondaryIndexAction{}
		}
		if ch.Delete != "" {
			u.Delete = &v2types.DeleteGlobalSecondaryIndexAction{IndexName: aws.String(ch.Delete)}
		}
		if ch.Update != "" {
			u.Update = &v2types.UpdateGlobalSecondaryIndexAction{IndexName: aws.String(ch.Update), ProvisionedThroughput: v2Throughput()}
		}
		in.GlobalSecondaryIndexUpdates = append(in.GlobalSecondaryIndexUpdates, u)
	}
	for _, d := range op.Defs {
		ad.add(d[0], d[1])
	}
	for _, n := range ad.order {
		in.AttributeDefinitions = append(in.AttributeDefinitions, v2types.AttributeDefinition{AttributeName: aws.String(n), AttributeType: v2types.ScalarAttributeType(ad.typ[n])})
	}
	if op.Billing != "" {
		in.BillingMode = v2types.BillingMode(op.Billing)
	}
	return in
}
