// Package adapt translates abstract operations to the SDK v1 and SDK v2 fake clients
// and normalises what they return.
package adapt

import (
	"fmt"

	v2types "github.com/aws/aws-sdk-go-v2/service/dynamodb/types"
	v1ddb "github.com/aws/aws-sdk-go/service/dynamodb"
	mtypes "github.com/truora/minidyn/types"

	"verifharness/val"
)

// ---------- SDK v1 ----------

// ToV1 builds a freshly allocated SDK v1 attribute value.
func ToV1(v val.V) *v1ddb.AttributeValue {
	switch v.K {
	case val.KS:
		s := v.Str
		return &v1ddb.AttributeValue{S: &s}
	case val.KN:
		s := v.Str
		return &v1ddb.AttributeValue{N: &s}
	case val.KB:
		return &v1ddb.AttributeValue{B: append(make([]byte, 0, len(v.Str)), v.Str...)}
	case val.KBOOL:
		b := v.Bool
		return &v1ddb.AttributeValue{BOOL: &b}
	case val.KNULL:
		b := true
		return &v1ddb.AttributeValue{NULL: &b}
	case val.KL:
		l := make([]*v1ddb.AttributeValue, 0, len(v.L))
		for _, e := range v.L {
			l = append(l, ToV1(e))
		}
		return &v1ddb.AttributeValue{L: l}
	case val.KM:
		m := make(map[string]*v1ddb.AttributeValue, len(v.M))
		for k, e := range v.M {
			m[k] = ToV1(e)
		}
		return &v1ddb.AttributeValue{M: m}
	case val.KSS:
		out := make([]*string, 0, len(v.Set))
		for _, m := range v.Set {
			if m == NilName {
				out = append(out, nil) // a set member that is a nil pointer
				continue
			}
			s := m
			out = append(out, &s)
		}
		return &v1ddb.AttributeValue{SS: out}
	case val.KNS:
		out := make([]*string, 0, len(v.Set))
		for _, m := range v.Set {
			if m == NilName {
				out = append(out, nil)
				continue
			}
			s := m
			out = append(out, &s)
		}
		return &v1ddb.AttributeValue{NS: out}
	case val.KBS:
		out := make([][]byte, 0, len(v.Set))
		for _, m := range v.Set {
			out = append(out, append(make([]byte, 0, len(m)), m...))
		}
		return &v1ddb.AttributeValue{BS: out}
	case val.KInvalid:
		// values the SDK types can express although they are no DynamoDB values (val.Invalid("nil") ...)
		switch v.Str {
		case "nil":
			return nil
		case "two-types":
			s, n := "x", "1"
			return &v1ddb.AttributeValue{S: &s, N: &n}
		case "null-false":
			b := false
			return &v1ddb.AttributeValue{NULL: &b}
		}
	}
	return &v1ddb.AttributeValue{}
}

// ItemToV1 converts an item (nil stays nil).
func ItemToV1(it val.Item) map[string]*v1ddb.AttributeValue {
	if it == nil {
		return nil
	}
	out := make(map[string]*v1ddb.AttributeValue, len(it))
	for k, v := range it {
		out[k] = ToV1(v)
	}
	return out
}

// FromV1 normalises an SDK v1 attribute value. Exactly one field must be set.
func FromV1(a *v1ddb.AttributeValue) val.V {
	if a == nil {
		return val.Invalid("nil AttributeValue")
	}
	set := 0
	var out val.V
	if a.S != nil {
		set++
		out = val.Str(*a.S)
	}
	if a.N != nil {
		set++
		out = val.Num(*a.N)
	}
	if a.B != nil {
		set++
		out = val.Bin(string(a.B))
	}
	if a.BOOL != nil {
		set++
		out = val.Bool(*a.BOOL)
	}
	if a.NULL != nil {
		set++
		if *a.NULL {
			out = val.Null()
		} else {
			out = val.Invalid("NULL:false")
		}
	}
	if a.L != nil {
		set++
		l := make([]val.V, 0, len(a.L))
		for _, e := range a.L {
			l = append(l, FromV1(e))
		}
		out = val.V{K: val.KL, L: l}
	}
	if a.M != nil {
		set++
		m := make(map[string]val.V, len(a.M))
		for k, e := range a.M {
			m[k] = FromV1(e)
		}
		out = val.V{K: val.KM, M: m}
	}
	if a.SS != nil {
		set++
		ms := []string{}
		for _, p := range a.SS {
			if p == nil {
				return val.Invalid("nil SS member")
			}
			ms = append(ms, *p)
		}
		out = val.V{K: val.KSS, Set: ms}
	}
	if a.NS != nil {
		set++
		ms := []string{}
		for _, p := range a.NS {
			if p == nil {
				return val.Invalid("nil NS member")
			}
			ms = append(ms, *p)
		}
		out = val.V{K: val.KNS, Set: ms}
	}
	if a.BS != nil {
		set++
		ms := []string{}
		for _, p := range a.BS {
			ms = append(ms, string(p))
		}
		out = val.V{K: val.KBS, Set: ms}
	}
	if set != 1 {
		return val.Invalid(fmt.Sprintf("%d fields set", set))
	}
	return out
}

// ItemFromV1 normalises an item; nil map -> nil.
func ItemFromV1(m map[string]*v1ddb.AttributeValue) val.Item {
	if m == nil {
		return nil
	}
	out := make(val.Item, len(m))
	for k, v := range m {
		out[k] = FromV1(v)
	}
	return out
}

// ---------- SDK v2 ----------

// ToV2 builds a freshly allocated SDK v2 attribute value.
func ToV2(v val.V) v2types.AttributeValue {
	switch v.K {
	case val.KS:
		return &v2types.AttributeValueMemberS{Value: v.Str}
	case val.KN:
		return &v2types.AttributeValueMemberN{Value: v.Str}
	case val.KB:
		return &v2types.AttributeValueMemberB{Value: append(make([]byte, 0, len(v.Str)), v.Str...)}
	case val.KBOOL:
		return &v2types.AttributeValueMemberBOOL{Value: v.Bool}
	case val.KNULL:
		return &v2types.AttributeValueMemberNULL{Value: true}
	case val.KL:
		l := make([]v2types.AttributeValue, 0, len(v.L))
		for _, e := range v.L {
			l = append(l, ToV2(e))
		}
		return &v2types.AttributeValueMemberL{Value: l}
	case val.KM:
		m := make(map[string]v2types.AttributeValue, len(v.M))
		for k, e := range v.M {
			m[k] = ToV2(e)
		}
		return &v2types.AttributeValueMemberM{Value: m}
	case val.KSS:
		return &v2types.AttributeValueMemberSS{Value: append([]string{}, v.Set...)}
	case val.KNS:
		return &v2types.AttributeValueMemberNS{Value: append([]string{}, v.Set...)}
	case val.KBS:
		out := make([][]byte, 0, len(v.Set))
		for _, m := range v.Set {
			out = append(out, append(make([]byte, 0, len(m)), m...))
		}
		if len(out) == 0 {
			out = nil // (an empty set as the zero value of the member: a nil slice)
		}
		return &v2types.AttributeValueMemberBS{Value: out}
	case val.KInvalid:
		if v.Str == "null-false" {
			return &v2types.AttributeValueMemberNULL{Value: false}
		}
	}
	return nil
}

// ItemToV2 converts an item (nil stays nil).
func ItemToV2(it val.Item) map[string]v2types.AttributeValue {
	if it == nil {
		return nil
	}
	out := make(map[string]v2types.AttributeValue, len(it))
	for k, v := range it {
		out[k] = ToV2(v)
	}
	return out
}

// FromV2 normalises an SDK v2 attribute value.
func FromV2(a v2types.AttributeValue) val.V {
	switch t := a.(type) {
	case nil:
		return val.Invalid("nil AttributeValue")
	case *v2types.AttributeValueMemberS:
		return val.Str(t.Value)
	case *v2types.AttributeValueMemberN:
		return val.Num(t.Value)
	case *v2types.AttributeValueMemberB:
		return val.Bin(string(t.Value))
	case *v2types.AttributeValueMemberBOOL:
		return val.Bool(t.Value)
	case *v2types.AttributeValueMemberNULL:
		if !t.Value {
			return val.Invalid("NULL:false")
		}
		return val.Null()
	case *v2types.AttributeValueMemberL:
		l := make([]val.V, 0, len(t.Value))
		for _, e := range t.Value {
			l = append(l, FromV2(e))
		}
		return val.V{K: val.KL, L: l}
	case *v2types.AttributeValueMemberM:
		m := make(map[string]val.V, len(t.Value))
		for k, e := range t.Value {
			m[k] = FromV2(e)
		}
		return val.V{K: val.KM, M: m}
	case *v2types.AttributeValueMemberSS:
		return val.V{K: val.KSS, Set: append([]string{}, t.Value...)}
	case *v2types.AttributeValueMemberNS:
		return val.V{K: val.KNS, Set: append([]string{}, t.Value...)}
	case *v2types.AttributeValueMemberBS:
		ms := []string{}
		for _, p := range t.Value {
			ms = append(ms, string(p))
		}
		return val.V{K: val.KBS, Set: ms}
	}
	return val.Invalid(fmt.Sprintf("%T", a))
}

// ItemFromV2 normalises an item; nil map -> nil.
func ItemFromV2(m map[string]v2types.AttributeValue) val.Item {
	if m == nil {
		return nil
	}
	out := make(val.Item, len(m))
	for k, v := range m {
		out[k] = FromV2(v)
	}
	return out
}

// ---------- minidyn internal types (for driving the interpreter directly) ----------

// ToTypes builds a freshly allocated internal item value, the way the SDK v1 adapter
// represents values (one field set).
func ToTypes(v val.V) *mtypes.Item {
	switch v.K {
	case val.KS:
		s := v.Str
		return &mtypes.Item{S: &s}
	case val.KN:
		s := v.Str
		return &mtypes.Item{N: &s}
	case val.KB:
		return &mtypes.Item{B: append(make([]byte, 0, len(v.Str)), v.Str...)}
	case val.KBOOL:
		b := v.Bool
		return &mtypes.Item{BOOL: &b}
	case val.KNULL:
		b := true
		return &mtypes.Item{NULL: &b}
	case val.KL:
		l := make([]*mtypes.Item, 0, len(v.L))
		for _, e := range v.L {
			l = append(l, ToTypes(e))
		}
		return &mtypes.Item{L: l}
	case val.KM:
		m := make(map[string]*mtypes.Item, len(v.M))
		for k, e := range v.M {
			m[k] = ToTypes(e)
		}
		return &mtypes.Item{M: m}
	case val.KSS:
		out := make([]*string, 0, len(v.Set))
		for _, m := range v.Set {
			s := m
			out = append(out, &s)
		}
		return &mtypes.Item{SS: out}
	case val.KNS:
		out := make([]*string, 0, len(v.Set))
		for _, m := range v.Set {
			s := m
			out = append(out, &s)
		}
		return &mtypes.Item{NS: out}
	case val.KBS:
		out := make([][]byte, 0, len(v.Set))
		for _, m := range v.Set {
			out = append(out, append(make([]byte, 0, len(m)), m...))
		}
		return &mtypes.Item{BS: out}
	}
	return &mtypes.Item{}
}

// ItemToTypes converts an item (nil stays nil).
func ItemToTypes(it val.Item) map[string]*mtypes.Item {
	if it == nil {
		return nil
	}
	out := make(map[string]*mtypes.Item, len(it))
	for k, v := range it {
		out[k] = ToTypes(v)
	}
	return out
}

// FromTypes normalises an internal item value.
func FromTypes(a *mtypes.Item) val.V {
	if a == nil {
		return val.Invalid("nil Item")
	}
	set := 0
	var out val.V
	if a.S != nil {
		set++
		out = val.Str(*a.S)
	}
	if a.N != nil {
		set++
		out = val.Num(*a.N)
	}
	if a.B != nil {
		set++
		out = val.Bin(string(a.B))
	}
	if a.BOOL != nil {
		set++
		out = val.Bool(*a.BOOL)
	}
	if a.NULL != nil {
		set++
		if *a.NULL {
			out = val.Null()
		} else {
			out = val.Invalid("NULL:false")
		}
	}
	if a.L != nil {
		set++
		l := make([]val.V, 0, len(a.L))
		for _, e := range a.L {
			l = append(l, FromTypes(e))
		}
		out = val.V{K: val.KL, L: l}
	}
	if a.M != nil {
		set++
		m := make(map[string]val.V, len(a.M))
		for k, e := range a.M {
			m[k] = FromTypes(e)
		}
		out = val.V{K: val.KM, M: m}
	}
	if a.SS != nil {
		set++
		ms := []string{}
		for _, p := range a.SS {
			if p == nil {
				return val.Invalid("nil SS member")
			}
			ms = append(ms, *p)
		}
		out = val.V{K: val.KSS, Set: ms}
	}
	if a.NS != nil {
		set++
		ms := []string{}
		for _, p := range a.NS {
			if p == nil {
				return val.Invalid("nil NS member")
			}
			ms = append(ms, *p)
		}
		out = val.V{K: val.KNS, Set: ms}
	}
	if a.BS != nil {
		set++
		ms := []string{}
		for _, p := range a.BS {
			ms = append(ms, string(p))
		}
		out = val.V{K: val.KBS, Set: ms}
	}
	if set != 1 {
		return val.Invalid(fmt.Sprintf("%d fields set", set))
	}
	return out
}

// ItemFromTypes normalises an item; nil -> nil.
func ItemFromTypes(m map[string]*mtypes.Item) val.Item {
	if m == nil {
		return nil
	}
	out := make(val.Item, len(m))
	for k, v := range m {
		out[k] = FromTypes(v)
	}
	return out
}
