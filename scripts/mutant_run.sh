#!/bin/bash
# usage: mutant_run.sh <patch.diff | revert:<commit>> <prop> [tier] [seed]
# Applies a change to a scratch worktree of /repo HEAD, builds the harness against it and runs
# one check with a scratch root, then removes everything. Exit code = the check's exit code.
set -u
CHANGE="$1"; PROP="$2"; TIER="${3:-quick}"; SEED="${4:-1}"
export GOFLAGS=-mod=mod GOPROXY=off GOSUMDB=off GOTOOLCHAIN=local
W=$(mktemp -d /tmp/vmut-XXXXXX)
R=$(mktemp -d /tmp/vroot-XXXXXX)
cleanup() { git -C /repo worktree remove --force "$W/repo" >/dev/null 2>&1; rm -rf "$W" "$R"; }
trap cleanup EXIT
git -C /repo worktree add -q --detach "$W/repo" HEAD || exit 3
case "$CHANGE" in
  revert:*) git -C "$W/repo" revert --no-commit "${CHANGE#revert:}" >/dev/null 2>&1 || { echo "revert failed"; exit 3; } ;;
  none) ;;
  *) git -C "$W/repo" apply "$CHANGE" || { echo "patch failed"; exit 3; } ;;
esac
(cd "$W/repo" && go build ./... ) || { echo "mutant does not compile"; exit 3; }
if [ "${CHECK_SUITE:-0}" = "1" ]; then
  (cd "$W/repo" && go test -vet=off -count=1 ./... 2>&1 | grep -v "^ok\|no test files" | head -20)
fi
cd "${HARNESS_DIR:-/verif/harness}"
sed "s#=> /repo#=> $W/repo#" go.mod > "$W/go.mod"; cp go.sum "$W/go.sum"
BIN="$W/vcheck"
RACE=""
go build -modfile="$W/go.mod" -tags verif -o "$BIN-$PROP" ./cmd/vcheck || exit 3
if [ "$PROP" = "C11" ]; then go build -race -modfile="$W/go.mod" -tags verif -o "$BIN-$PROP-race" ./cmd/vcheck || exit 3; fi
cp /verif/KNOWN_FINDINGS.txt "$R/"
VERIF_SEED=$SEED "$BIN-$PROP" -prop "$PROP" -tier "$TIER" -root "$R" | cut -c1-${WIDTH:-400}
rc=${PIPESTATUS[0]}
exit $rc
