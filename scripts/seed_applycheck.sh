#!/bin/bash
# Every stored seeded patch must apply to /repo HEAD AND build there (a hunk that applies with an offset may land in
# the wrong function). Prints the names that do not; run after every repair committed to /repo.
export GOFLAGS=-mod=mod GOPROXY=off GOSUMDB=off GOTOOLCHAIN=local
W=$(mktemp -d /tmp/vapply-XXXXXX)
trap 'git -C /repo worktree remove --force "$W/repo" >/dev/null 2>&1; rm -rf "$W"' EXIT
git -C /repo worktree add -q --detach "$W/repo" HEAD || exit 3
cd "$W/repo"
bad=0
for d in /verif/seeded/*/; do
  n=$(basename "$d")
  git checkout -q . ; git clean -fdq
  if ! git apply "$d/patch.diff" 2>/dev/null; then echo "$n NOAPPLY"; bad=1; continue; fi
  go build ./... >/dev/null 2>&1 || { echo "$n BUILDFAIL"; bad=1; }
done
echo "seed_applycheck: done (bad=$bad)"
