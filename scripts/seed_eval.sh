#!/bin/bash
# usage: seed_eval.sh <src dir with patch.diff, demo test, demo_dir.txt> <name> <prop> [more props...]
# Confirms a seeded change (suite passes with it; demo fails with it and passes without it), then runs
# the named checks against it and stores everything under /verif/seeded/<name>/.
set -u
SRC="$1"; NAME="$2"; shift 2; PROPS="$@"
export GOFLAGS=-mod=mod GOPROXY=off GOSUMDB=off GOTOOLCHAIN=local
W=$(mktemp -d /tmp/vseed-XXXXXX)
trap 'git -C /repo worktree remove --force "$W/repo" >/dev/null 2>&1; rm -rf "$W"' EXIT
git -C /repo worktree add -q --detach "$W/repo" HEAD || exit 3
DEMO=$(ls "$SRC"/seed_demo_test.go 2>/dev/null || ls "$SRC"/*_test.go | grep -v existing_demo | head -1)
DDIR=$(tr -d ' \n' < "$SRC/demo_dir.txt")
OUT=/verif/seeded/$NAME
mkdir -p "$OUT"
cp "$SRC/patch.diff" "$OUT/patch.diff"; cp "$DEMO" "$OUT/"; cp "$SRC/demo_dir.txt" "$OUT/" 2>/dev/null; cp "$SRC/notes.md" "$OUT/notes.md" 2>/dev/null
cp "$DEMO" "$W/repo/$DDIR/"
DN=$(basename "$DEMO")
TESTS=$(grep -o '^func Test[A-Za-z0-9_]*' "$DEMO" | sed 's/func //' | paste -sd'|')
( cd "$W/repo/$DDIR" && go test -vet=off -count=1 -run "^($TESTS)\$" . > "$W/demo_without.txt" 2>&1 ); RC_WITHOUT=$?
git -C "$W/repo" apply "$SRC/patch.diff" || { echo "PATCH DOES NOT APPLY"; exit 3; }
rm "$W/repo/$DDIR/$DN"
( cd "$W/repo" && go build ./... && go test -vet=off -count=1 ./... > "$W/suite.txt" 2>&1 ); RC_SUITE=$?
cp "$DEMO" "$W/repo/$DDIR/"
( cd "$W/repo/$DDIR" && go test -vet=off -count=1 -run "^($TESTS)\$" . > "$W/demo_with.txt" 2>&1 ); RC_WITH=$?
echo "demo without change: rc=$RC_WITHOUT (want 0); suite with change: rc=$RC_SUITE (want 0); demo with change: rc=$RC_WITH (want != 0)"
[ $RC_SUITE -ne 0 ] && grep -v "^ok\|no test files" "$W/suite.txt" | head -20
RESULTS=""
for P in $PROPS; do
  /verif/scripts/mutant_run.sh "$SRC/patch.diff" $P quick 1 > "$W/check_$P.txt" 2>&1
  N=$(grep -c '^VIOLATION' "$W/check_$P.txt")
  SIG=$(grep 'signature:' "$W/check_$P.txt" | head -3 | sed 's/ *signature: //' | paste -sd';')
  echo "$P: $N violation signature(s): $SIG"
  RESULTS="$RESULTS{\"check\":\"$P\",\"violations\":$N,\"signatures\":\"$(echo $SIG | sed 's/"/\\"/g')\"},"
  grep -A2 'signature:' "$W/check_$P.txt" | head -12 > "$OUT/caught_by_$P.txt"
done
cat > "$OUT/meta.json" <<EOM
{"name":"$NAME","breaks_property":"$(echo $PROPS | cut -d' ' -f1)","source":"independent sub-agent given only the property text and a scratch worktree",
 "confirmed":{"demo_passes_without_change":$([ $RC_WITHOUT -eq 0 ] && echo true || echo false),"repo_suite_passes_with_change":$([ $RC_SUITE -eq 0 ] && echo true || echo false),"demo_fails_with_change":$([ $RC_WITH -ne 0 ] && echo true || echo false)},
 "ran":"scripts/seed_eval.sh: go test ./... on a scratch worktree with the patch; demo test with and without; scripts/mutant_run.sh <patch> <check> quick",
 "needs_to_manifest":"see notes.md",
 "checks":[${RESULTS%,}]}
EOM
