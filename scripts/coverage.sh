#!/bin/bash
# usage: coverage.sh [tier]   (default quick)
# Builds the harness with Go's coverage instrumentation over every package of truora/minidyn (as it is in
# /repo's working tree), runs ALL twenty monitors and writes which statements of the library the workloads
# actually reached to /verif/coverage/: summary.txt (total + every function below 100 %) and uncovered.txt
# (the uncovered blocks file:line). This is a measure of REACH of the monitors, not a verdict.
set -u
TIER="${1:-quick}"
export GOFLAGS=-mod=mod GOPROXY=off GOSUMDB=off GOTOOLCHAIN=local
ROOT="$(cd "$(dirname "$0")/.." && pwd)"
W="$ROOT/work/cov"; rm -rf "$W"; mkdir -p "$W/data" "$W/root" "$ROOT/coverage"
cd "$ROOT/harness" || exit 2
go build -tags verif -cover -coverpkg=github.com/truora/minidyn/...,verifharness/... -o "$W/vcheck-cov" ./cmd/vcheck || exit 2
cp "$W/vcheck-cov" "$W/vcheck-cov-race"   # the C11R workload without the race runtime: same code paths
cp "$ROOT/KNOWN_FINDINGS.txt" "$W/root/"
for i in 01 02 03 04 05 06 07 08 09 10 11 12 13 14 15 16 17 18 19 20; do
  GOCOVERDIR="$W/data" "$W/vcheck-cov" -prop C$i -tier "$TIER" -root "$W/root" 2>&1 | tail -1 | cut -c1-120
done
go tool covdata textfmt -i="$W/data" -o "$W/cov.txt" -pkg=github.com/truora/minidyn/...
{
  echo "# statements of github.com/truora/minidyn reached by the twenty monitors ($TIER tier), commit $(git -C /repo rev-parse --short HEAD)"
  go tool cover -func="$W/cov.txt" | tail -1
  echo "# functions below 100 % (verifhook / verif_access files are the harness's own hooks)"
  go tool cover -func="$W/cov.txt" | awk '$3+0 < 100.0' | grep -v '^total' | sort -k3 -n
} > "$ROOT/coverage/summary.txt"
grep -v '^mode:' "$W/cov.txt" | awk '$NF == 0 {print $1}' | sort > "$ROOT/coverage/uncovered.txt"
rm -rf "$W"
head -3 "$ROOT/coverage/summary.txt"
