#!/bin/bash
# usage: seed_matrix.sh [seed names...]   (default: every directory under seeded/)
# For every seeded change: build the harness once against a scratch worktree with the patch applied and
# run ALL twenty quick checks; prints one line per (seed, check) with the number of VIOLATION lines.
set -u
export GOFLAGS=-mod=mod GOPROXY=off GOSUMDB=off GOTOOLCHAIN=local
HERE="$(cd "$(dirname "$0")/.." && pwd)"
NAMES="${@:-$(ls "$HERE/seeded")}"
for NAME in $NAMES; do
  P="$HERE/seeded/$NAME/patch.diff"; [ -f "$P" ] || continue
  W=$(mktemp -d /tmp/vmat-XXXXXX); R=$(mktemp -d /tmp/vmatroot-XXXXXX)
  git -C /repo worktree add -q --detach "$W/repo" HEAD || continue
  if git -C "$W/repo" apply "$P" 2>/dev/null; then
    sed "s#=> /repo#=> $W/repo#" "$HERE/harness/go.mod" > "$W/go.mod"; cp "$HERE/harness/go.sum" "$W/go.sum"
    ( cd "$HERE/harness" && go build -modfile="$W/go.mod" -tags verif -o "$W/vcheck" ./cmd/vcheck && go build -race -modfile="$W/go.mod" -tags verif -o "$W/vcheck-race" ./cmd/vcheck ) || echo "$NAME BUILD-FAILED"
    cp "$HERE/KNOWN_FINDINGS.txt" "$R/"
    LINE="$NAME:"
    for i in 01 02 03 04 05 06 07 08 09 10 11 12 13 14 15 16 17 18 19 20; do
      N=$("$W/vcheck" -prop C$i -tier quick -root "$R" 2>/dev/null | grep -c '^VIOLATION')
      [ "$N" != "0" ] && LINE="$LINE C$i=$N"
    done
    echo "$LINE"
  else
    echo "$NAME PATCH-DOES-NOT-APPLY"
  fi
  git -C /repo worktree remove --force "$W/repo" >/dev/null 2>&1; rm -rf "$W" "$R"
done
