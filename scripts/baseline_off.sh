#!/bin/bash
# Runs the repository's own test suite with the verif build tag OFF and compares the set of
# passing tests with /root/.vp/BASELINE.json (stable_pass). Exit 0 iff every stable test passes.
export GOFLAGS=-mod=mod GOPROXY=off GOSUMDB=off GOTOOLCHAIN=local
cd /repo || exit 2
out=$(mktemp)
go test -json -vet=off -count=1 -timeout 25m ./... > "$out" 2>&1
python3 - "$out" <<'PY'
import json,sys
passed=set(); failed=set()
for line in open(sys.argv[1]):
    try: e=json.loads(line)
    except Exception: continue
    if e.get("Test") and e.get("Action") in ("pass","fail"):
        (passed if e["Action"]=="pass" else failed).add(e["Package"]+"::"+e["Test"])
base=json.load(open("/root/.vp/BASELINE.json"))
stable=set(base["stable_pass"])
missing=sorted(stable-passed)
print("passed=%d failed=%d stable=%d missing_from_stable=%d"%(len(passed),len(failed),len(stable),len(missing)))
for m in missing: print("NOT PASSING:",m)
for f in sorted(failed): print("FAILED:",f)
sys.exit(1 if missing else 0)
PY
rc=$?
rm -f "$out"
exit $rc
