#!/bin/bash
# usage: seed_recheck.sh [parallelism]   Re-runs, for every seeded change under seeded/, the quick check of the
# property it was written to break (against a scratch worktree of /repo HEAD with the patch applied) and prints
# "<name> <number of VIOLATION lines>"; a change that is no longer caught (0) or no longer applies shows up here.
set -u
HERE="$(cd "$(dirname "$0")/.." && pwd)"
P="${1:-4}"
ls "$HERE/seeded" | xargs -P "$P" -I{} bash -c '
  n={}; prop=${n%%-*}; patch='"$HERE"'/seeded/$n/patch.diff
  out=$('"$HERE"'/scripts/mutant_run.sh $patch $prop quick 1 2>&1)
  c=$(echo "$out" | grep -c "^VIOLATION")
  if echo "$out" | grep -q "patch failed"; then c="PATCH-DOES-NOT-APPLY"; fi
  echo "$n $c"'
