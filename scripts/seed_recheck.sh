#!/bin/bash
# usage: seed_recheck.sh [parallelism]   Re-runs, for every seeded change under seeded/, the quick check of the
# property it was written to break (against a scratch worktree of /repo HEAD with the patch applied) and prints
# "<name> <number of VIOLATION lines>"; a change that is no longer caught (0) or no longer applies shows up here.
set -u
HERE="$(cd "$(dirname "$0")/.." && pwd)"
P="${1:-4}"
ls "$HERE/seeded" | xargs -P "$P" -I{} bash -c '
  n={}; prop=${n%%-*}; patch='"$HERE"'/seeded/$n/patch.diff
  # the check that was recorded as catching it (a few changes are caught by another property than the one they
  # were written against, e.g. shared read locks by C11)
  if [ ! -s '"$HERE"'/seeded/$n/caught_by_$prop.txt ]; then
    for f in '"$HERE"'/seeded/$n/caught_by_*.txt; do [ -s "$f" ] && prop=$(basename $f .txt | sed s/caught_by_//) && break; done
  fi
  out=$('"$HERE"'/scripts/mutant_run.sh $patch $prop quick 1 2>&1)
  c=$(echo "$out" | grep -c "^VIOLATION")
  if echo "$out" | grep -q "patch failed"; then c="PATCH-DOES-NOT-APPLY"; fi
  echo "$n $prop $c"'
