#!/bin/bash
# usage: seed_rebase.sh <patch> <out> <base-commit>: applies a stored seeded patch at the last commit it applied to, cherry-picks it
# onto /repo HEAD, builds and tests; on a conflict the worktree is left under /tmp/rbw-* for a manual merge (remove it with
# git -C /repo worktree remove --force). Run scripts/seed_applycheck.sh after every repair committed to /repo.
P=$1; OUT=$2; BASE=$3
W=$(mktemp -d /tmp/rbw-XXXX)
git -C /repo worktree add -q --detach $W/repo $BASE
git -C $W/repo apply $P || { echo NOAPPLY; git -C /repo worktree remove --force $W/repo; exit 1; }
git -C $W/repo add -A; git -C $W/repo -c user.email=x@x -c user.name=x commit -q -m seed
s=$(git -C $W/repo rev-parse HEAD)
git -C $W/repo checkout -q $(git -C /repo rev-parse HEAD)
export GOFLAGS=-mod=mod GOPROXY=off GOSUMDB=off GOTOOLCHAIN=local
if git -C $W/repo -c user.email=x@x -c user.name=x cherry-pick $s >/dev/null 2>&1; then
  git -C $W/repo diff HEAD~1 HEAD > $OUT; ( cd $W/repo && go build ./... && go test ./... 2>&1 | grep -v "no test files" | grep -v "^ok" | head -5 ); echo "REBASED $OUT"
  git -C /repo worktree remove --force $W/repo; rm -rf $W
else
  echo "MANUAL: worktree left at $W/repo"; git -C $W/repo status --short | grep "^UU\|^AA"
fi
